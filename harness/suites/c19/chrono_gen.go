package c19

import (
	"bufio"
	"fmt"
	"math/big"
	"strconv"
	"time"

	"verifharness/internal/proto"
)

// ---------------------------------------------------------------- input construction

// epochDay: days since 1970-01-01 of a proleptic Gregorian date (input construction only).
func epochDay(y, m, d int) int64 {
	return time.Date(y, time.Month(m), d, 0, 0, 0, 0, time.UTC).Unix() / 86400
}

// instant of local wall clock (day number D, second of day tod, nsec) in a zone `off` seconds east.
func instantStr(D int64, tod, nsec int64, off int) string {
	sec := D*86400 + tod - int64(off)
	if sec > -9000000000 && sec < 9000000000 {
		return strconv.FormatInt(sec*1000000000+nsec, 10)
	}
	b := new(big.Int).Mul(big.NewInt(sec), bigE9)
	b.Add(b, big.NewInt(nsec))
	return b.String()
}

// cycleStart: the 400-year cycle swept exhaustively in the thorough tier is 1800-01-01 … 2199-12-31
// (146097 days; all of it representable in int64 nanoseconds).
var cycleStart = epochDay(1800, 1, 1)

const cycleDays = 146097

var fixedOffsets = []int{0, 3600, -18000, 19800, 45900, -43200, 50400, -34200, 28800, 1, -1, 86399, -86399, 1234, -4567}

var boundaryTods = []int64{0, 1, 43199, 43200, 86398, 86399}

// boundary dates: leap days and their neighbours, month / year / century ends, the epoch, Go's zero
// time, the ends of the int64-nanosecond range, far years.
var boundaryDates = [][3]int{
	{1970, 1, 1}, {1969, 12, 31}, {1970, 1, 4}, {1970, 1, 5},
	{2000, 2, 28}, {2000, 2, 29}, {2000, 3, 1}, {1999, 12, 31}, {2000, 1, 1}, {2000, 12, 31}, {2001, 1, 1},
	{1900, 2, 28}, {1900, 3, 1}, {1899, 12, 31}, {1900, 1, 1}, {2100, 2, 28}, {2100, 3, 1}, {2099, 12, 31}, {2100, 1, 1},
	{2024, 2, 28}, {2024, 2, 29}, {2024, 3, 1}, {2024, 3, 2}, {2024, 3, 3}, {2024, 3, 4}, {2023, 2, 28}, {2023, 3, 1},
	{2024, 1, 31}, {2024, 4, 30}, {2024, 5, 31}, {2024, 6, 30}, {2024, 7, 31}, {2024, 8, 31}, {2024, 9, 30}, {2024, 10, 31},
	{2024, 11, 30}, {2024, 12, 29}, {2024, 12, 30}, {2024, 12, 31}, {2025, 1, 1}, {2025, 1, 5}, {2025, 1, 6},
	{1600, 2, 29}, {1582, 10, 15}, {1582, 10, 4}, {2400, 2, 29}, {2399, 12, 31}, {2400, 1, 1},
	{1, 1, 1}, {1, 1, 2}, {0, 12, 31}, {0, 2, 29}, {0, 3, 1}, {-1, 12, 31}, {-400, 2, 29}, {-401, 3, 1}, {-4712, 1, 1},
	{9999, 12, 31}, {10000, 1, 1}, {1677, 9, 21}, {1677, 9, 22}, {2262, 4, 11}, {2262, 4, 12}, {1800, 1, 1}, {2199, 12, 31}, {2200, 1, 1},
	{292277, 1, 1}, {-292277, 6, 15},
}

type gen struct {
	rng            *proto.RNG
	w              *bufio.Writer
	shard, nshards int
	caseNo         int
}

func (g *gen) emit(lines []string) {
	if g.caseNo%g.nshards == g.shard {
		fmt.Fprintf(g.w, "# case %d\n", g.caseNo)
		for _, l := range lines {
			fmt.Fprintln(g.w, l)
		}
	}
	g.caseNo++
}

func (g *gen) mine() bool { return g.caseNo%g.nshards == g.shard }

func (g *gen) randTod() (int64, int64) {
	tod := int64(g.rng.Intn(86400))
	nsec := int64(0)
	switch g.rng.Intn(6) {
	case 0:
		nsec = int64(g.rng.Intn(1000000000))
	case 1:
		nsec = []int64{1, 999999999, 500000000, 999999}[g.rng.Intn(4)]
	}
	return tod, nsec
}

func (g *gen) randOff() int {
	if g.rng.Intn(3) == 0 {
		return 0
	}
	if g.rng.Intn(8) == 0 {
		return g.rng.Range(-50400, 50400)
	}
	return fixedOffsets[g.rng.Intn(len(fixedOffsets))]
}

func (g *gen) randHMS() (int, int, int) {
	switch g.rng.Intn(8) {
	case 0:
		return 0, 0, 0
	case 1:
		return 23, 59, 59
	case 2:
		return 12, 0, 0
	}
	return g.rng.Intn(24), g.rng.Intn(60), g.rng.Intn(60)
}

// singleOps: a handful of individually addressed calls around one instant.
func (g *gen) singleOps(D int64, tod, nsec int64, off int, n int) []string {
	t := instantStr(D, tod, nsec, off)
	var out []string
	for i := 0; i < n; i++ {
		wd := g.rng.Intn(7)
		k := g.rng.Range(-2, 2)
		if g.rng.Intn(10) == 0 {
			k = g.rng.Range(-60, 60)
		}
		switch g.rng.Intn(16) {
		case 0:
			out = append(out, fmt.Sprintf("sod %d %s", off, t), fmt.Sprintf("eod %d %s", off, t))
		case 1:
			out = append(out, fmt.Sprintf("rsod %d %s %d", off, t, g.rng.Range(-40, 40)), fmt.Sprintf("reod %d %s %d", off, t, g.rng.Range(-400, 400)))
		case 2:
			out = append(out, fmt.Sprintf("sow %d %s %d", off, t, wd), fmt.Sprintf("eow %d %s %d", off, t, wd))
		case 3, 4:
			out = append(out, fmt.Sprintf("rsow %d %s %d %d", off, t, wd, k))
		case 5:
			out = append(out, fmt.Sprintf("reow %d %s %d %d", off, t, wd, k), fmt.Sprintf("rtow %d %s %d %d", off, t, wd, k))
		case 6, 7:
			h, m, s := g.randHMS()
			if g.rng.Intn(3) == 0 { // the instant's own wall clock: the "equal" branch
				h, m, s = int(tod/3600), int(tod/60%60), int(tod%60)
			}
			out = append(out, fmt.Sprintf("next %d %d %s %d %d %d", off, off, t, h, m, s),
				fmt.Sprintf("passed %d %d %s %d %d %d", off, off, t, h, m, s), fmt.Sprintf("future %d %d %s %d %d %d", off, off, t, h, m, s))
		case 8:
			// now expressed in another zone than time.Local (model only; the spec is silent)
			h, m, s := g.randHMS()
			out = append(out, fmt.Sprintf("next %d %d %s %d %d %d", g.randOff(), off, t, h, m, s))
		case 9, 10, 11:
			// a second instant near the first: same second … a month away
			deltas := []int64{0, 1, -1, 59, 60, 3599, 3600, 86399, 86400, -86400, 6 * 86400, 7 * 86400, -7 * 86400, 28 * 86400, 31 * 86400, 365 * 86400, 366 * 86400}
			dl := deltas[g.rng.Intn(len(deltas))]
			if g.rng.Intn(3) == 0 {
				dl = int64(g.rng.Range(-40*86400, 40*86400))
			}
			off2 := off
			if g.rng.Intn(5) == 0 {
				off2 = g.randOff()
			}
			t2 := instantStr(D, tod+dl+int64(off2-off), int64(g.rng.Intn(2))*nsec, off2)
			op := "same"
			if g.rng.Intn(4) == 0 {
				op = "minmax"
			}
			out = append(out, fmt.Sprintf("%s %d %s %d %s", op, off, t, off2, t2))
		case 12:
			out = append(out, fmt.Sprintf("monthdays %d %s", off, t), fmt.Sprintf("civil %d %s", off, t))
		case 13:
			out = append(out, fmt.Sprintf("adddate %d %s 0 0 %d", off, t, g.rng.Range(-800, 800)))
		case 14:
			sizes := []int64{1, 1000, 1000000, 1000000000, 60000000000, 3600000000000, 86400000000000, 604800000000000, 7, 999999937, 90000000000000}
			out = append(out, fmt.Sprintf("trunc %s %d", t, sizes[g.rng.Intn(len(sizes))]))
		case 15:
			out = append(out, fmt.Sprintf("sweep %d %s", off, t))
		}
	}
	return out
}

// malformed: arguments outside the documented ranges (weekday, time of day, month/day overflow, huge shifts).
func (g *gen) malformed(D int64) []string {
	tod, nsec := g.randTod()
	off := g.randOff()
	t := instantStr(D, tod, nsec, off)
	var out []string
	for i := 0; i < 6; i++ {
		switch g.rng.Intn(8) {
		case 0:
			out = append(out, fmt.Sprintf("sow %d %s %d", off, t, g.rng.Range(-9, 16)), fmt.Sprintf("eow %d %s %d", off, t, g.rng.Range(-9, 16)))
		case 1:
			out = append(out, fmt.Sprintf("rsow %d %s %d %d", off, t, g.rng.Range(-9, 16), g.rng.Range(-5000, 5000)))
		case 2:
			out = append(out, fmt.Sprintf("next %d %d %s %d %d %d", off, off, t, g.rng.Range(-30, 50), g.rng.Range(-70, 130), g.rng.Range(-70, 130)))
		case 3:
			out = append(out, fmt.Sprintf("passed %d %d %s %d %d %d", off, off, t, g.rng.Range(-30, 50), g.rng.Range(-70, 130), g.rng.Range(-70, 130)))
		case 4:
			out = append(out, fmt.Sprintf("date %d %d %d %d %d %d %d %d", off, g.rng.Range(-500, 3000), g.rng.Range(-30, 40), g.rng.Range(-400, 800),
				g.rng.Range(-30, 50), g.rng.Range(-70, 130), g.rng.Range(-70, 130), g.rng.Range(-2000000000, 2000000000)))
		case 5:
			out = append(out, fmt.Sprintf("adddate %d %s %d %d %d", off, t, g.rng.Range(-300, 300), g.rng.Range(-30, 30), g.rng.Range(-400, 400)))
		case 6:
			out = append(out, fmt.Sprintf("trunc %s %d", t, []int64{0, -1, -86400000000000, 1, 3}[g.rng.Intn(5)]))
		case 7:
			out = append(out, fmt.Sprintf("rsod %d %s %d", off, t, g.rng.Range(-200000, 200000)), fmt.Sprintf("rtow %d %s %d %d", off, t, g.rng.Range(-9, 16), g.rng.Range(-50, 50)))
		}
	}
	return out
}

func chronoGen(rng *proto.RNG, tier string, shard, nshards int, w *bufio.Writer) {
	g := &gen{rng: rng, w: w, shard: shard, nshards: nshards}

	// (i) boundary dates x boundary times of day x a rotating fixed offset: civil + sweep + single ops
	for bi, b := range boundaryDates {
		D := epochDay(b[0], b[1], b[2])
		var lines []string
		for ti, tod := range boundaryTods {
			off := fixedOffsets[(bi+ti)%len(fixedOffsets)]
			for _, o := range []int{0, off} {
				t := instantStr(D, tod, 0, o)
				lines = append(lines, fmt.Sprintf("civil %d %s", o, t), fmt.Sprintf("sweep %d %s", o, t))
			}
		}
		rt, rn := g.randTod()
		lines = append(lines, g.singleOps(D, rt, rn, g.randOff(), 6)...)
		g.emit(lines)
	}

	// (ii) exhaustive small sweep: two weeks (leap-day week 2024-02-26…, year-end week 1999-12-27…),
	// every day x {00:00:00, 00:00:01, 23:59:59} x every weekday x week offsets -2..2, individually addressed
	for _, start := range [][3]int{{2024, 2, 26}, {1999, 12, 27}} {
		D0 := epochDay(start[0], start[1], start[2])
		for _, off := range []int{0, 19800, -18000} {
			for d := int64(0); d < 7; d++ {
				for _, tod := range []int64{0, 1, 86399} {
					t := instantStr(D0+d, tod, 0, off)
					var lines []string
					for wd := 0; wd < 7; wd++ {
						lines = append(lines, fmt.Sprintf("sow %d %s %d", off, t, wd), fmt.Sprintf("eow %d %s %d", off, t, wd))
						for k := -2; k <= 2; k++ {
							lines = append(lines, fmt.Sprintf("rsow %d %s %d %d", off, t, wd, k))
						}
						lines = append(lines, fmt.Sprintf("reow %d %s %d 1", off, t, wd), fmt.Sprintf("rtow %d %s %d -1", off, t, wd))
					}
					g.emit(lines)
				}
			}
		}
	}
	// all pairs of a lattice of instants around week / month / year boundaries: the `same` predicates
	{
		var lat []int64 // local wall-clock seconds
		for _, b := range [][3]int{{2024, 12, 29}, {2024, 12, 30}, {2024, 12, 31}, {2025, 1, 1}, {2025, 1, 5}, {2025, 1, 6}, {2024, 2, 29}, {2024, 3, 1}} {
			D := epochDay(b[0], b[1], b[2])
			for _, tod := range []int64{0, 43200, 86399} {
				lat = append(lat, D*86400+tod)
			}
		}
		for _, off := range []int{0, 45900, -43200} {
			for _, a := range lat {
				var lines []string
				for _, b := range lat {
					lines = append(lines, fmt.Sprintf("same %d %s %d %s", off, instantStr(0, a, 0, off), off, instantStr(0, b, 0, off)))
				}
				g.emit(lines)
			}
		}
	}

	// (iii) days of the 400-year cycle
	if tier == "thorough" {
		for i := int64(0); i < cycleDays; i++ {
			if !g.mine() {
				g.caseNo++
				continue
			}
			D := cycleStart + i
			off := fixedOffsets[int(i)%len(fixedOffsets)]
			rt, rn := g.randTod()
			lines := []string{
				fmt.Sprintf("civil %d %s", off, instantStr(D, rt, rn, off)),
				fmt.Sprintf("sweep 0 %s", instantStr(D, 0, 0, 0)),
				fmt.Sprintf("sweep %d %s", off, instantStr(D, 1, 0, off)),
				fmt.Sprintf("sweep %d %s", off, instantStr(D, 43200, 0, off)),
				fmt.Sprintf("sweep 0 %s", instantStr(D, 86399, 0, 0)),
				fmt.Sprintf("sweep %d %s", off, instantStr(D, rt, rn, off)),
			}
			g.emit(lines)
		}
	}
	nSampled, nRandom, nMal := 1500, 600, 300
	if tier == "thorough" {
		nSampled, nRandom, nMal = 6000, 6000, 3000
	}
	for i := 0; i < nSampled; i++ {
		D := cycleStart + int64(g.rng.Intn(cycleDays))
		var lines []string
		for j := 0; j < 3; j++ {
			tod, nsec := g.randTod()
			if j == 0 {
				tod, nsec = boundaryTods[g.rng.Intn(len(boundaryTods))], 0
			}
			off := g.randOff()
			t := instantStr(D, tod, nsec, off)
			lines = append(lines, fmt.Sprintf("civil %d %s", off, t), fmt.Sprintf("sweep %d %s", off, t))
			lines = append(lines, g.singleOps(D, tod, nsec, off, 3)...)
		}
		g.emit(lines)
	}
	// random structured: any day within ±12000 years, several calls around it
	for i := 0; i < nRandom; i++ {
		D := int64(g.rng.Range(-4400000, 4400000))
		if g.rng.Intn(2) == 0 {
			D = cycleStart + int64(g.rng.Intn(cycleDays))
		}
		tod, nsec := g.randTod()
		g.emit(g.singleOps(D, tod, nsec, g.randOff(), 10))
	}
	// malformed stream
	for i := 0; i < nMal; i++ {
		D := cycleStart + int64(g.rng.Intn(cycleDays))
		g.emit(g.malformed(D))
	}
}
