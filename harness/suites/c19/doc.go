// Package c19 holds the harness suites of property C19 (registered from init functions).
package c19
