package c19

import (
	"bufio"
	"fmt"
	"strconv"
	"strings"
	"time"
	_ "time/tzdata" // fallback when the system has no zoneinfo; no network either way

	"github.com/kercylan98/minotaur/toolkit/chrono"
	"verifharness/internal/proto"
)

// Suite `dst`: the day/week/moment helpers in zones with daylight-saving shifts.  There is no model:
// the Lean judge (`dst-judge`, the Bool predicates of MV.Spec.Chrono) decides every answer, given the
// zone's transition table around the instant, which the runner reads from tzdata through
// Time.ZoneBounds and prints after the answer:   [result…] ; <initial offset> <t1> <o1> <t2> <o2> …
// time.Local is the zone of the line (the helpers that take wall-clock hours read it).

// Suite `dst` stays 30 days away from shifts that skip a local midnight (America/Sao_Paulo and Pacific/Apia
// spring forward at 00:00, Australia/Lord_Howe did once in 1981); suite `dstm` looks at exactly those
// shifts, where the known finding C19-day-without-midnight applies.
var dstZones = []string{"America/New_York", "Europe/Berlin", "Australia/Lord_Howe", "America/Sao_Paulo", "Pacific/Apia"}

// skipsMidnight: the wall-clock stretch skipped by the shift at `tr` contains a 00:00:00.
func skipsMidnight(tr time.Time) bool {
	o1, o2 := int64(offsetOf(tr.Add(-time.Second))), int64(offsetOf(tr))
	lo, hi := tr.Unix()+o1, tr.Unix()+o2
	return lo < hi && floorDiv(hi-1, 86400) != floorDiv(lo-1, 86400)
}

func nearAny(ts []time.Time, t time.Time, d time.Duration) bool {
	for _, x := range ts {
		if t.After(x.Add(-d)) && t.Before(x.Add(d)) {
			return true
		}
	}
	return false
}

var locCache = map[string]*time.Location{}

func loadZone(name string) *time.Location {
	if l, ok := locCache[name]; ok {
		return l
	}
	l, err := time.LoadLocation(name)
	if err != nil {
		l = nil
	}
	locCache[name] = l
	return l
}

const tableMargin = 45 * 24 * time.Hour

// zoneTable prints the offsets in force from lo-45d to hi+45d.
func zoneTable(loc *time.Location, lo, hi time.Time) string {
	var sb strings.Builder
	x := lo.Add(-tableMargin).In(loc)
	end := hi.Add(tableMargin)
	sb.WriteString(strconv.Itoa(offsetOf(x)))
	for i := 0; i < 64; i++ {
		_, e := x.ZoneBounds()
		if e.IsZero() || e.After(end) {
			break
		}
		sb.WriteByte(' ')
		sb.WriteString(instantOf(e))
		sb.WriteByte(' ')
		sb.WriteString(strconv.Itoa(offsetOf(e)))
		x = e
	}
	return sb.String()
}

type dstRunner struct{}

func (r *dstRunner) Reset() {}

func (r *dstRunner) Step(t []string) string {
	if len(t) < 3 {
		return "bad-op"
	}
	loc := loadZone(t[1])
	if loc == nil {
		return "err:nozone"
	}
	time.Local = loc
	defer func() { time.Local = canary }()
	x, ok := mkTimeIn(t[2], loc)
	if !ok {
		return "bad-op"
	}
	a := t[3:]
	v, ok := atoiAll(a)
	if t[0] != "same" && !ok {
		return "bad-op"
	}
	tail := func() string { return " ; " + zoneTable(loc, x, x) }
	switch {
	case t[0] == "sod" && len(v) == 0:
		return one(chrono.GetStartOfDay(x)) + tail()
	case t[0] == "eod" && len(v) == 0:
		return one(chrono.GetEndOfDay(x)) + tail()
	case t[0] == "sow" && len(v) == 1:
		return one(chrono.GetStartOfWeek(x, time.Weekday(v[0]))) + tail()
	case t[0] == "eow" && len(v) == 1:
		return one(chrono.GetEndOfWeek(x, time.Weekday(v[0]))) + tail()
	case t[0] == "rsow" && len(v) == 2:
		return one(chrono.GetRelativeStartOfWeek(x, time.Weekday(v[0]), v[1])) + tail()
	case (t[0] == "next" || t[0] == "nextx") && len(v) == 3:
		return one(chrono.GetNextMoment(x, v[0], v[1], v[2])) + tail()
	case t[0] == "windowweek" && len(v) == 0:
		return fmtPeriod(chrono.NewPeriodWindowWeek(x)) + tail()
	case t[0] == "same" && len(a) == 1:
		y, ok := mkTimeIn(a[0], loc)
		if !ok {
			return "bad-op"
		}
		var o outList
		o.bool01(chrono.IsSameSecond(x, y))
		o.bool01(chrono.IsSameMinute(x, y))
		o.bool01(chrono.IsSameHour(x, y))
		o.bool01(chrono.IsSameDay(x, y))
		o.bool01(chrono.IsSameWeek(x, y))
		o.bool01(chrono.IsSameMonth(x, y))
		o.bool01(chrono.IsSameYear(x, y))
		lo, hi := x, y
		if y.Before(x) {
			lo, hi = y, x
		}
		return o.String() + " ; " + zoneTable(loc, lo, hi)
	}
	return "bad-op"
}

// transitions of a zone between 1970 and 2038 (input construction for the generator)
func transitionsOf(loc *time.Location) []time.Time {
	var out []time.Time
	x := time.Date(1970, 1, 1, 0, 0, 0, 0, time.UTC).In(loc)
	stop := time.Date(2038, 1, 1, 0, 0, 0, 0, time.UTC)
	for i := 0; i < 400; i++ {
		_, e := x.ZoneBounds()
		if e.IsZero() || e.After(stop) {
			break
		}
		out = append(out, e)
		x = e
	}
	return out
}

// skipDst: instants the suite stays away from.  Pacific/Apia had no 2011-12-30 at all (the zone moved
// across the date line); "the Friday of that week" does not exist there, which is outside the property.
func skipDst(zone string, t time.Time) bool {
	if zone == "Pacific/Apia" {
		lo := time.Date(2011, 11, 15, 0, 0, 0, 0, time.UTC)
		hi := time.Date(2012, 2, 15, 0, 0, 0, 0, time.UTC)
		return t.After(lo) && t.Before(hi)
	}
	return false
}

// dstOps: the calls made on one instant, grouped by helper (a case holds calls of one helper only, so
// that a shrunk counterexample and the finding it is matched against are about that helper).
func dstOps(g *gen, acc map[string][]string, zone string, t time.Time, full bool) {
	ts := instantOf(t)
	add := func(op, rest string) {
		line := op + " " + zone + " " + ts
		if rest != "" {
			line += " " + rest
		}
		acc[op] = append(acc[op], line)
	}
	add("sod", "")
	add("eod", "")
	add("windowweek", "")
	wds := []int{g.rng.Intn(7), g.rng.Intn(7)}
	if full {
		wds = []int{0, 1, 2, 3, 4, 5, 6}
	}
	for _, wd := range wds {
		add("sow", strconv.Itoa(wd))
		add("eow", strconv.Itoa(wd))
		ks := []int{g.rng.Range(-2, 2)}
		if full {
			ks = []int{-2, -1, 0, 1, 2}
		}
		for _, k := range ks {
			add("rsow", fmt.Sprintf("%d %d", wd, k))
		}
	}
	loc := loadZone(zone)
	if loc != nil {
		lt := t.In(loc)
		addNext := func(h, m, s int) {
			op := "next"
			if irregularRequest(loc, t, h, m, s) {
				op = "nextx"
			}
			add(op, fmt.Sprintf("%d %d %d", h, m, s))
		}
		addNext(g.randHMS())
		addNext(lt.Hour(), lt.Minute(), lt.Second())
		addNext(g.rng.Range(0, 4), g.rng.Intn(60), g.rng.Intn(60))
	}
	dl := []time.Duration{time.Second, time.Hour, 23 * time.Hour, 24 * time.Hour, 25 * time.Hour, 6 * 24 * time.Hour, 7 * 24 * time.Hour, 30 * 24 * time.Hour}[g.rng.Intn(8)]
	if g.rng.Bool() {
		dl = -dl
	}
	add("same", instantOf(t.Add(dl)))
}

var dstOpNames = []string{"sod", "eod", "sow", "eow", "rsow", "next", "nextx", "same", "windowweek"}

// irregularRequest: does the wall-clock time h:m:s fall, on the local date of `now` or the next one,
// into the stretch of wall-clock time that a shift skips or repeats?  (Input classification only: such
// requests are emitted as `nextx` so that the known finding about them is matched on them alone; the
// judge decides both kinds with the same predicate and does its own labelling.)
func irregularRequest(loc *time.Location, now time.Time, h, m, s int) bool {
	x := now.Add(-3 * 24 * time.Hour).In(loc)
	ly, lm, ld := now.In(loc).Date()
	today := time.Date(ly, lm, ld, 0, 0, 0, 0, time.UTC).Unix() / 86400
	want := int64(h*3600 + m*60 + s)
	for i := 0; i < 8; i++ {
		_, e := x.ZoneBounds()
		if e.IsZero() || e.After(now.Add(4*24*time.Hour)) {
			break
		}
		o1, o2 := int64(offsetOf(e.Add(-time.Second))), int64(offsetOf(e))
		lo, hi := e.Unix()+o1, e.Unix()+o2 // wall-clock seconds shown just before / from the shift on
		if lo > hi {
			lo, hi = hi, lo
		}
		// wall-clock seconds in [lo, hi) are skipped (clocks forward) or shown twice (clocks back)
		for d := floorDiv(lo, 86400); d <= floorDiv(hi-1, 86400); d++ {
			if d != today && d != today+1 {
				continue
			}
			a, b := lo, hi
			if a < d*86400 {
				a = d * 86400
			}
			if b > (d+1)*86400 {
				b = (d + 1) * 86400
			}
			if want >= a-d*86400 && want < b-d*86400 {
				return true
			}
		}
		x = e
	}
	return false
}

func floorDiv(a, b int64) int64 {
	q := a / b
	if a%b != 0 && (a < 0) != (b < 0) {
		q--
	}
	return q
}
func floorMod(a, b int64) int64 { return a - floorDiv(a, b)*b }

func (g *gen) emitByOp(acc map[string][]string) {
	for _, op := range dstOpNames {
		g.emit(acc[op])
	}
}

func dstGen(rng *proto.RNG, tier string, shard, nshards int, w *bufio.Writer) {
	dstGenZones(false, rng, tier, shard, nshards, w)
}

func dstmGen(rng *proto.RNG, tier string, shard, nshards int, w *bufio.Writer) {
	dstGenZones(true, rng, tier, shard, nshards, w)
}

func dstGenZones(midnight bool, rng *proto.RNG, tier string, shard, nshards int, w *bufio.Writer) {
	g := &gen{rng: rng, w: w, shard: shard, nshards: nshards}
	perZone, nRandom := 24, 40
	if tier == "thorough" {
		perZone, nRandom = 1000, 800
	}
	for _, zone := range dstZones {
		loc := loadZone(zone)
		if loc == nil {
			g.emit([]string{fmt.Sprintf("sod %s 0", zone)}) // answers err:nozone, which the judge rejects
			continue
		}
		all := transitionsOf(loc)
		var trs, skipping []time.Time
		for _, tr := range all {
			if skipsMidnight(tr.In(loc)) {
				skipping = append(skipping, tr)
			}
		}
		for _, tr := range all {
			if midnight == nearAny(skipping, tr, 30*24*time.Hour) {
				trs = append(trs, tr)
			}
		}
		if midnight {
			trs = skipping
			nRandom = 0
		}
		// (a) around transitions: the days before/after and the hours right at the shift
		step := 1
		if len(trs) > perZone {
			step = len(trs) / perZone
		}
		start := 0
		if step > 1 {
			start = int(g.rng.Intn(step))
		}
		for i := start; i < len(trs); i += step {
			tr := trs[i]
			if skipDst(zone, tr) {
				continue
			}
			// instants right at the shift
			acc := map[string][]string{}
			for _, d := range []time.Duration{-3 * time.Hour, -time.Hour - time.Second, -30 * time.Minute, -time.Second, 0, time.Second, 30 * time.Minute, time.Hour, 3 * time.Hour} {
				dstOps(g, acc, zone, tr.Add(d), false)
			}
			g.emitByOp(acc)
			// every day of the two weeks around it, at a few local times of day, all weekdays and week offsets
			acc = map[string][]string{}
			for day := -8; day <= 8; day++ {
				base := tr.In(loc).AddDate(0, 0, day)
				y, m, d := base.Date()
				tod := []int{0, 1, 3600 + 1800, 12 * 3600, 86399, g.rng.Intn(86400)}[g.rng.Intn(6)]
				t := time.Date(y, m, d, 0, 0, tod, 0, loc)
				dstOps(g, acc, zone, t, day%4 == 0)
			}
			g.emitByOp(acc)
		}
		// (b) random instants 1970..2037, a handful per case
		for i := 0; i < nRandom; i++ {
			acc := map[string][]string{}
			for j := 0; j < 6; j++ {
				t := time.Unix(int64(g.rng.Range(0, 2145916800)), int64(g.rng.Intn(2))*int64(g.rng.Intn(1000000000)))
				if skipDst(zone, t) || nearAny(skipping, t, 30*24*time.Hour) {
					continue
				}
				dstOps(g, acc, zone, t, g.rng.Intn(8) == 0)
			}
			g.emitByOp(acc)
		}
	}
}

func init() {
	proto.Register(&proto.Suite{Name: "dst", Gen: dstGen, New: func() proto.Runner { return &dstRunner{} }})
	proto.Register(&proto.Suite{Name: "dstm", Gen: dstmGen, New: func() proto.Runner { return &dstRunner{} }})
}
