package c19

import (
	"math/big"
	"strconv"
	"strings"
	"time"

	"github.com/kercylan98/minotaur/toolkit/chrono"
	"verifharness/internal/proto"
)

// Suite `chrono`: moment.go of toolkit/chrono in fixed-offset zones against MV.Model.Chrono.
//
// Protocol (one self-contained line per call, the functions are pure):
//   instants are nanoseconds since the Unix epoch (decimal, unbounded), zone offsets seconds east,
//   a returned time.Time is printed as `ns off` (off = the offset of the Location it carries).
// time.Local is assigned per line: to the `loc` argument for the helpers that read it
// (GetNextMoment, IsMomentPassed/Future), to a canary zone (+07:07:07) for all others so that a
// hidden dependence on the process zone shows up as a difference.

var (
	zoneCache = map[int]*time.Location{}
	canary    = time.FixedZone("canary", 7*3600+7*60+7)
	bigE9     = big.NewInt(1000000000)
)

func zoneOf(off int) *time.Location {
	if off == 0 {
		return time.UTC
	}
	if z, ok := zoneCache[off]; ok {
		return z
	}
	z := time.FixedZone("fix", off)
	zoneCache[off] = z
	return z
}

// parseInstant turns decimal nanoseconds since the epoch into (sec, nsec) with 0 <= nsec < 1e9.
func parseInstant(s string) (sec, nsec int64, ok bool) {
	if v, err := strconv.ParseInt(s, 10, 64); err == nil {
		sec = v / 1000000000
		nsec = v % 1000000000
		if nsec < 0 {
			nsec += 1000000000
			sec--
		}
		return sec, nsec, true
	}
	b, good := new(big.Int).SetString(s, 10)
	if !good {
		return 0, 0, false
	}
	q, r := new(big.Int).DivMod(b, bigE9, new(big.Int)) // Euclidean: 0 <= r
	if !q.IsInt64() {
		return 0, 0, false
	}
	return q.Int64(), r.Int64(), true
}

func mkTime(nsTok, offTok string) (time.Time, bool) {
	sec, nsec, ok := parseInstant(nsTok)
	off, ok2 := proto.Atoi(offTok)
	if !ok || !ok2 {
		return time.Time{}, false
	}
	return time.Unix(sec, nsec).In(zoneOf(off)), true
}

func mkTimeIn(nsTok string, loc *time.Location) (time.Time, bool) {
	sec, nsec, ok := parseInstant(nsTok)
	if !ok {
		return time.Time{}, false
	}
	return time.Unix(sec, nsec).In(loc), true
}

// instantOf prints the instant of t as decimal nanoseconds since the epoch.
func instantOf(t time.Time) string {
	sec, nsec := t.Unix(), int64(t.Nanosecond())
	if sec > -9000000000 && sec < 9000000000 {
		return strconv.FormatInt(sec*1000000000+nsec, 10)
	}
	b := new(big.Int).Mul(big.NewInt(sec), bigE9)
	b.Add(b, big.NewInt(nsec))
	return b.String()
}

func offsetOf(t time.Time) int {
	_, off := t.Zone()
	return off
}

type outList struct{ sb strings.Builder }

func (o *outList) add(s string) {
	if o.sb.Len() == 0 {
		o.sb.WriteByte('[')
	} else {
		o.sb.WriteByte(' ')
	}
	o.sb.WriteString(s)
}
func (o *outList) int(v int)        { o.add(strconv.Itoa(v)) }
func (o *outList) i64(v int64)      { o.add(strconv.FormatInt(v, 10)) }
func (o *outList) inst(t time.Time) { o.add(instantOf(t)) }
func (o *outList) time(t time.Time) { o.add(instantOf(t)); o.int(offsetOf(t)) }
func (o *outList) bool01(b bool) {
	if b {
		o.add("1")
	} else {
		o.add("0")
	}
}
func (o *outList) String() string {
	if o.sb.Len() == 0 {
		return "[]"
	}
	return o.sb.String() + "]"
}

func one(t time.Time) string { var o outList; o.time(t); return o.String() }

func atoiAll(toks []string) ([]int, bool) {
	out := make([]int, len(toks))
	for i, t := range toks {
		v, ok := proto.Atoi(t)
		if !ok {
			return nil, false
		}
		out[i] = v
	}
	return out, true
}

var sweepWeekOffsets = []int{-2, -1, 0, 1, 2}

func sweepMoments(t time.Time) [][3]int {
	s := t.Hour()*3600 + t.Minute()*60 + t.Second()
	hms := func(x int) [3]int { x = ((x % 86400) + 86400) % 86400; return [3]int{x / 3600, x / 60 % 60, x % 60} }
	return [][3]int{{0, 0, 0}, hms(s), hms(s + 1), hms(s - 1), {12, 0, 0}, {23, 59, 59}}
}

type chronoRunner struct{}

func (r *chronoRunner) Reset() {}

func (r *chronoRunner) Step(t []string) string {
	time.Local = canary
	a := t[1:]
	switch t[0] {
	case "civil":
		if len(a) != 2 {
			break
		}
		x, ok := mkTime(a[1], a[0])
		if !ok {
			break
		}
		var o outList
		y, m, d := x.Date()
		o.int(y)
		o.int(int(m))
		o.int(d)
		o.int(x.Hour())
		o.int(x.Minute())
		o.int(x.Second())
		o.int(x.Nanosecond())
		o.int(int(x.Weekday()))
		o.i64(x.Unix())
		return o.String()
	case "date":
		v, ok := atoiAll(a)
		if !ok || len(v) != 8 {
			break
		}
		return instantOf(time.Date(v[1], time.Month(v[2]), v[3], v[4], v[5], v[6], v[7], zoneOf(v[0])))
	case "adddate":
		if len(a) != 5 {
			break
		}
		x, ok := mkTime(a[1], a[0])
		v, ok2 := atoiAll(a[2:])
		if !ok || !ok2 {
			break
		}
		return instantOf(x.AddDate(v[0], v[1], v[2]))
	case "trunc":
		if len(a) != 2 {
			break
		}
		x, ok := mkTime(a[0], "0")
		d, err := strconv.ParseInt(a[1], 10, 64)
		if !ok || err != nil {
			break
		}
		return instantOf(x.Truncate(time.Duration(d)))
	case "sod", "eod", "monthdays", "sweep":
		if len(a) != 2 {
			break
		}
		x, ok := mkTime(a[1], a[0])
		if !ok {
			break
		}
		switch t[0] {
		case "sod":
			return one(chrono.GetStartOfDay(x))
		case "eod":
			return one(chrono.GetEndOfDay(x))
		case "monthdays":
			return strconv.Itoa(chrono.GetMonthDays(x))
		}
		return sweep(x)
	case "rsod", "reod":
		if len(a) != 3 {
			break
		}
		x, ok := mkTime(a[1], a[0])
		k, ok2 := proto.Atoi(a[2])
		if !ok || !ok2 {
			break
		}
		if t[0] == "rsod" {
			return one(chrono.GetRelativeStartOfDay(x, k))
		}
		return one(chrono.GetRelativeEndOfDay(x, k))
	case "sow", "eow":
		if len(a) != 3 {
			break
		}
		x, ok := mkTime(a[1], a[0])
		wd, ok2 := proto.Atoi(a[2])
		if !ok || !ok2 {
			break
		}
		if t[0] == "sow" {
			return one(chrono.GetStartOfWeek(x, time.Weekday(wd)))
		}
		return one(chrono.GetEndOfWeek(x, time.Weekday(wd)))
	case "rsow", "reow", "rtow":
		if len(a) != 4 {
			break
		}
		x, ok := mkTime(a[1], a[0])
		v, ok2 := atoiAll(a[2:])
		if !ok || !ok2 {
			break
		}
		switch t[0] {
		case "rsow":
			return one(chrono.GetRelativeStartOfWeek(x, time.Weekday(v[0]), v[1]))
		case "reow":
			return one(chrono.GetRelativeEndOfWeek(x, time.Weekday(v[0]), v[1]))
		}
		return one(chrono.GetRelativeTimeOfWeek(x, time.Weekday(v[0]), v[1]))
	case "next", "passed", "future":
		if len(a) != 6 {
			break
		}
		loc, ok0 := proto.Atoi(a[0])
		x, ok := mkTime(a[2], a[1])
		v, ok2 := atoiAll(a[3:])
		if !ok0 || !ok || !ok2 {
			break
		}
		time.Local = zoneOf(loc)
		switch t[0] {
		case "next":
			return one(chrono.GetNextMoment(x, v[0], v[1], v[2]))
		case "passed":
			return strconv.FormatBool(chrono.IsMomentPassed(x, v[0], v[1], v[2]))
		}
		return strconv.FormatBool(chrono.IsMomentFuture(x, v[0], v[1], v[2]))
	case "same", "minmax":
		if len(a) != 4 {
			break
		}
		x, ok := mkTime(a[1], a[0])
		y, ok2 := mkTime(a[3], a[2])
		if !ok || !ok2 {
			break
		}
		var o outList
		if t[0] == "same" {
			o.bool01(chrono.IsSameSecond(x, y))
			o.bool01(chrono.IsSameMinute(x, y))
			o.bool01(chrono.IsSameHour(x, y))
			o.bool01(chrono.IsSameDay(x, y))
			o.bool01(chrono.IsSameWeek(x, y))
			o.bool01(chrono.IsSameMonth(x, y))
			o.bool01(chrono.IsSameYear(x, y))
			return o.String()
		}
		o.time(chrono.Max(x, y))
		o.time(chrono.Min(x, y))
		f1, f2 := chrono.SmallerFirst(x, y)
		o.time(f1)
		o.time(f2)
		l1, l2 := chrono.SmallerLast(x, y)
		o.time(l1)
		o.time(l2)
		o.i64(int64(chrono.Delta(x, y)))
		o.int(chrono.FloorDeltaDays(x, y))
		return o.String()
	}
	return "bad-op"
}

// sweep evaluates the whole day/week family on one instant (same layout as Oracle.Chrono.sweepModel).
func sweep(x time.Time) string {
	var o outList
	o.inst(chrono.GetStartOfDay(x))
	o.inst(chrono.GetEndOfDay(x))
	o.inst(chrono.GetRelativeStartOfDay(x, -1))
	o.inst(chrono.GetRelativeStartOfDay(x, 1))
	o.inst(chrono.GetRelativeEndOfDay(x, 1))
	o.int(chrono.GetMonthDays(x))
	for wd := 0; wd < 7; wd++ {
		o.inst(chrono.GetStartOfWeek(x, time.Weekday(wd)))
		o.inst(chrono.GetEndOfWeek(x, time.Weekday(wd)))
	}
	for wd := 0; wd < 7; wd++ {
		for _, k := range sweepWeekOffsets {
			o.inst(chrono.GetRelativeStartOfWeek(x, time.Weekday(wd), k))
		}
	}
	for wd := 0; wd < 7; wd++ {
		o.inst(chrono.GetRelativeEndOfWeek(x, time.Weekday(wd), 1))
		o.inst(chrono.GetRelativeTimeOfWeek(x, time.Weekday(wd), -1))
	}
	time.Local = x.Location()
	for _, m := range sweepMoments(x) {
		o.inst(chrono.GetNextMoment(x, m[0], m[1], m[2]))
	}
	time.Local = canary
	return o.String()
}

func init() {
	proto.Register(&proto.Suite{Name: "chrono", Gen: chronoGen, New: func() proto.Runner { return &chronoRunner{} }})
}
