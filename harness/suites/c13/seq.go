package c13

import (
	"verifharness/internal/proto"
)

// Suite "cmgr": sequential histories against the cluster manager, compared line by line with the
// Lean model MV.Model.ClusterManager (and with the abstract registry spec).
//
//	new A1 .. An     fresh actor system + manager offering abilities A1..An       -> ok | panic (duplicate)
//	lookup I A       FutureAsk(manager, ActorOf{I, A})                            -> ref <addr> #<launch> | err:ability | err:create | panic
//	kill I A         terminate the actor the pair maps to, wait until the manager forgot it -> killed <addr> | none
//	restart          the manager fails (injected panic), the guard restarts it    -> restarted
//	state            children of the manager and its members table                -> c=[..] m=[A I addr ..]
//	launches         launches of the ability provider per address                 -> [addr n ..]
type seqRunner struct{ w *world }

func (r *seqRunner) Reset() {
	if r.w != nil {
		shutdown(r.w.sys)
		r.w = nil
	}
}

func (r *seqRunner) Step(t []string) string {
	if len(t) == 0 {
		return "bad-op"
	}
	if t[0] == "new" {
		r.Reset()
		abilities := make([]string, 0, len(t)-1)
		for _, a := range t[1:] {
			abilities = append(abilities, dec(a))
		}
		w, err := newWorld(abilities)
		if err != nil {
			return "panic"
		}
		r.w = w
		return "ok"
	}
	if r.w == nil {
		return "bad-op"
	}
	switch {
	case t[0] == "lookup" && len(t) == 3:
		return r.w.lookup(dec(t[1]), dec(t[2]))
	case t[0] == "kill" && len(t) == 3:
		return r.w.kill(dec(t[1]), dec(t[2]))
	case t[0] == "restart" && len(t) == 1:
		return r.w.restart()
	case t[0] == "state" && len(t) == 1:
		return r.w.state()
	case t[0] == "launches" && len(t) == 1:
		return r.w.launchSnapshot()
	}
	return "bad-op"
}

func init() {
	proto.Register(&proto.Suite{Name: "cmgr", Gen: seqGen, New: func() proto.Runner { return &seqRunner{} }})
}
