package c13

import (
	"bufio"
	"fmt"
	"runtime"
	"strings"
	"sync"
	"time"

	"github.com/kercylan98/minotaur/engine/vivid"
	"github.com/kercylan98/minotaur/engine/vivid/cluster"
	"verifharness/internal/proto"
)

// Suite "cmgr-conc": K concurrent askers against one cluster manager; judged (MV.Spec.ClusterJudge),
// not compared: which of two simultaneous first requests creates the actor is not determined.
//
//	new A1 .. An             as in suite cmgr
//	par K R m I1 A1 .. Im Am K asker *actors* (each with its own context, so every request has its own
//	                         future address) are released together; asker k sends R*m requests one after the
//	                         other, the j-th for pair (k+j) mod m, and asks every reference it receives for
//	                         its launch number. Output: per asker its replies, then the launch counts of the
//	                         ability provider per address:  k0 r r .. | k1 r .. ; launches [addr n ..]
//	                         r = R:<addr>#<launch> | E:ability | E:create | T (no answer) ; a manager accident
//	                         during the phase appends " ; panic"
//	kill I A | restart       between phases, as in suite cmgr
type concRunner struct{ seqRunner }

type goMsg struct {
	pairs [][2]string
	n     int
	first int
	start chan struct{}
	ready *sync.WaitGroup
	out   *[]string
	done  *sync.WaitGroup
}

func (r *concRunner) Step(t []string) string {
	if len(t) > 0 && t[0] == "par" {
		if r.w == nil {
			return "bad-op"
		}
		return r.par(t)
	}
	if len(t) > 0 && (t[0] == "state" || t[0] == "launches") {
		return "bad-op"
	}
	return r.seqRunner.Step(t)
}

func (r *concRunner) par(t []string) string {
	if len(t) < 4 {
		return "bad-op"
	}
	K, ok1 := proto.Atoi(t[1])
	R, ok2 := proto.Atoi(t[2])
	m, ok3 := proto.Atoi(t[3])
	if !ok1 || !ok2 || !ok3 || K < 1 || K > 16 || R < 1 || R > 64 || m < 1 || m > 16 || len(t) != 4+2*m {
		return "bad-op"
	}
	pairs := make([][2]string, m)
	for j := 0; j < m; j++ {
		pairs[j] = [2]string{dec(t[4+2*j]), dec(t[5+2*j])}
	}
	if runtime.GOMAXPROCS(0) < 4 {
		runtime.GOMAXPROCS(4)
	}
	w := r.w
	acc, prov := w.accidents.Load(), w.mgr.Provided()
	start := make(chan struct{})
	var ready, done sync.WaitGroup
	outs := make([][]string, K)
	// the asker actors are spawned once per system and never terminated before shutdown: ActorSystem.ActorOf
	// from outside writes the guard's children map, which the guard's own turn writes when a top-level
	// actor terminates (ActorOf is documented as not safe for concurrent use)
	for len(w.askers) < K {
		w.askers = append(w.askers, w.sys.ActorOfF(func() vivid.Actor {
			return vivid.FunctionalActor(func(ctx vivid.ActorContext) {
				g, ok := ctx.Message().(*goMsg)
				if !ok {
					return
				}
				defer g.done.Done()
				g.ready.Done()
				<-g.start
				for j := 0; j < g.n; j++ {
					p := g.pairs[(g.first+j)%len(g.pairs)]
					a0 := w.accidents.Load()
					f := ctx.FutureAsk(w.mgrRef, cluster.VerifActorOfMessage(p[0], p[1]), askCap)
					res, answered := w.await(f, a0)
					s := "T"
					if answered {
						kind, ref := fmtReply(res)
						switch {
						case ref != nil:
							s = "R:" + enc(ref.GetLogicalAddress()) + "#" + w.incarnation(ctx.FutureAsk, ref)
						case kind == "err:ability":
							s = "E:ability"
						case kind == "err:create":
							s = "E:create"
						case kind == "timeout":
							s = "T"
						default:
							s = "X:" + kind
						}
					}
					*g.out = append(*g.out, s)
				}
			})
		}))
	}
	askers := w.askers[:K]
	ready.Add(K)
	done.Add(K)
	for k := 0; k < K; k++ {
		w.sys.Tell(askers[k], &goMsg{pairs: pairs, n: R * m, first: k, start: start, ready: &ready, out: &outs[k], done: &done})
	}
	ready.Wait()
	close(start)
	fin := make(chan struct{})
	go func() { done.Wait(); close(fin) }()
	complete := true
	select {
	case <-fin:
	case <-time.After(time.Duration(R*m+2) * askCap):
		complete = false
	}
	if !complete {
		return "incomplete"
	}
	var sb strings.Builder
	for k := 0; k < K; k++ {
		if k > 0 {
			sb.WriteString(" | ")
		}
		fmt.Fprintf(&sb, "k%d", k)
		for _, s := range outs[k] {
			sb.WriteByte(' ')
			sb.WriteString(s)
		}
	}
	sb.WriteString(" ; launches ")
	sb.WriteString(w.launchSnapshot())
	if w.accidents.Load() > acc {
		w.waitRestart(prov)
		sb.WriteString(" ; panic")
	}
	return sb.String()
}

// Generator of suite "cmgr-conc":
//
//	(A) systematic: K in {1,2,4,8} askers x the same 1..3 pairs (one node offering p), 1..3 rounds, then a second
//	    phase on the same pairs (must return the references of the first), kill / restart between phases;
//	(B) seeded random: 1..4 identities x 1..3 abilities (one possibly not offered), 1..8 askers, 1..4 rounds,
//	    2..5 phases with kills and (rarely) a restart in between;
//	(C) contested addresses: the colliding pairs (a-b,c) / (a,b-c) requested at the same time by 2..8 askers;
//	    illegal identities among legal ones.
func concGen(rng *proto.RNG, tier string, shard, nshards int, w *bufio.Writer) {
	thorough := tier == "thorough"
	caseNo := 0
	emit := func(lines []string) {
		n := caseNo
		caseNo++
		if n%nshards != shard {
			return
		}
		fmt.Fprintf(w, "# case %d\n", n)
		for _, l := range lines {
			fmt.Fprintln(w, l)
		}
	}
	parLine := func(K, R int, pairs [][2]string) string {
		var sb strings.Builder
		fmt.Fprintf(&sb, "par %d %d %d", K, R, len(pairs))
		for _, p := range pairs {
			sb.WriteString(" " + p[0] + " " + p[1])
		}
		return sb.String()
	}
	// (A)
	all := [][2]string{{"x", "p"}, {"y", "p"}, {"z", "p"}}
	reps := 1
	if thorough {
		reps = 4
	}
	for rep := 0; rep < reps; rep++ {
		for _, K := range []int{1, 2, 4, 8} {
			for m := 1; m <= 3; m++ {
				for R := 1; R <= 3; R++ {
					for _, between := range []string{"", "kill x p", "restart", "kill y p"} {
						if between == "restart" && R != 1 {
							continue
						}
						lines := []string{"new p", parLine(K, R, all[:m])}
						if between != "" {
							lines = append(lines, between)
						}
						lines = append(lines, parLine(K, R, all[:m]))
						emit(lines)
					}
				}
			}
		}
	}
	// (B)
	nB := 200
	if thorough {
		nB = 2500
	}
	idPool := []string{"u1", "u2", "u3", "u4", "a", "a-b", "room.7", "X"}
	abPool := []string{"calc", "chat", "c", "b-c", "p"}
	for k := 0; k < nB; k++ {
		ni, na := rng.Range(1, 4), rng.Range(1, 3)
		ids := pickDistinct(rng, idPool, ni)
		abs := pickDistinct(rng, abPool, na)
		offered := abs
		if na > 1 && rng.Intn(3) == 0 {
			offered = abs[:na-1]
		}
		lines := []string{"new " + strings.Join(offered, " ")}
		restarts := 0
		for ph, phases := 0, rng.Range(2, 5); ph < phases; ph++ {
			m := rng.Range(1, 6)
			pairs := make([][2]string, m)
			for j := range pairs {
				pairs[j] = [2]string{ids[rng.Intn(ni)], abs[rng.Intn(na)]}
			}
			lines = append(lines, parLine(rng.Range(1, 8), rng.Range(1, 4), pairs))
			switch rng.Pick(50, 40, 10) {
			case 1:
				lines = append(lines, "kill "+ids[rng.Intn(ni)]+" "+abs[rng.Intn(na)])
			case 2:
				if restarts < 1 {
					lines = append(lines, "restart")
					restarts++
				}
			}
		}
		emit(lines)
	}
	// (C)
	nC := 80
	if thorough {
		nC = 800
	}
	contested := [][2]string{{"a-b", "c"}, {"a", "b-c"}, {"a", "c"}, {"a-b", "b-c"}, {"<>", "c"}, {"u/1", "c"}, {"a", "zz"}}
	for k := 0; k < nC; k++ {
		m := rng.Range(2, 6)
		pairs := make([][2]string, m)
		pairs[0], pairs[1] = contested[0], contested[1]
		if rng.Bool() {
			pairs[0], pairs[1] = pairs[1], pairs[0]
		}
		for j := 2; j < m; j++ {
			pairs[j] = contested[rng.Intn(len(contested))]
		}
		K := rng.Range(2, 8)
		lines := []string{"new c b-c", parLine(K, rng.Range(1, 3), pairs)}
		if rng.Bool() {
			p := contested[rng.Intn(2)]
			lines = append(lines, "kill "+p[0]+" "+p[1])
		}
		lines = append(lines, parLine(rng.Range(2, 8), 1, pairs))
		emit(lines)
	}
}

func init() {
	proto.Register(&proto.Suite{Name: "cmgr-conc", Gen: concGen, New: func() proto.Runner { return &concRunner{} }})
}
