package c13

import (
	"fmt"
	"sort"
	"strings"
	"sync"
	"sync/atomic"
	"time"

	"github.com/kercylan98/minotaur/engine/future"
	"github.com/kercylan98/minotaur/engine/prc"
	"github.com/kercylan98/minotaur/engine/vivid"
	"github.com/kercylan98/minotaur/engine/vivid/cluster"
	"github.com/kercylan98/minotaur/engine/vivid/supervision"
	"github.com/kercylan98/minotaur/toolkit/log"
)

// The real cluster manager actor (cluster.drillmasterActor) is spawned under the name "cluster" in a
// plain vivid.ActorSystem (silent logger, no memberlist) through the verif constructor
// cluster.VerifNewManager; abilities are declared through the public WithAbility. Every op of the
// line protocol drives it with the real request message and observes only what an outside caller
// can observe (replies, the launch count of the ability's provider) plus, for the state op, the
// members table and the children of the manager read from inside the manager's own turn.
//
// Waiting is event-driven; the caps below are last resorts far above anything a loaded machine
// needs (a reply normally arrives within microseconds). Late is never reported as a violation by
// itself: a cap that expires yields "timeout", which no model output equals, so it would surface as
// a divergence — the caps are chosen so that this means "never answered".
const (
	askCap     = 20 * time.Second // a lookup / ping that is not answered
	settleCap  = 20 * time.Second // kill / restart not observed
	panicGrace = 300 * time.Millisecond
)

// token encoding of identities and abilities: "<>" is the empty string, '^' a space, '|' a tab
func dec(t string) string {
	if t == "<>" {
		return ""
	}
	return strings.NewReplacer("^", " ", "|", "\t").Replace(t)
}

func enc(s string) string {
	if s == "" {
		return "<>"
	}
	return strings.NewReplacer(" ", "^", "\t", "|").Replace(s)
}

type pingMsg struct{}
type pongMsg struct{ inc int }

// world is one actor system with one cluster manager
type world struct {
	sys       *vivid.ActorSystem
	mgr       *cluster.VerifManager
	mgrRef    vivid.ActorRef
	accidents atomic.Int64
	askers    []vivid.ActorRef // suite cmgr-conc: asker actors, spawned on demand, live until shutdown

	mu       sync.Mutex
	launches map[string]int // logical address -> number of times the ability's provider was launched there
}

func (w *world) launched(addr string) int {
	w.mu.Lock()
	defer w.mu.Unlock()
	w.launches[addr]++
	return w.launches[addr]
}

func (w *world) launchSnapshot() string {
	w.mu.Lock()
	defer w.mu.Unlock()
	keys := make([]string, 0, len(w.launches))
	for k := range w.launches {
		keys = append(keys, k)
	}
	sort.Strings(keys)
	parts := make([]string, 0, 2*len(keys))
	for _, k := range keys {
		parts = append(parts, enc(k), fmt.Sprint(w.launches[k]))
	}
	return "[" + strings.Join(parts, " ") + "]"
}

// abilityProvider is what a node declares for an ability: every launch is counted per address and
// the actor answers a ping with the number of its launch (its incarnation).
func (w *world) abilityProvider() cluster.ActorProvider {
	return cluster.FunctionalActorProvider(func() cluster.Actor {
		inc := 0
		return cluster.FunctionalActor(func(ctx cluster.ActorContext) {
			switch ctx.Message().(type) {
			case *vivid.OnLaunch:
				inc = w.launched(ctx.Ref().GetLogicalAddress())
			case pingMsg:
				ctx.Reply(pongMsg{inc: inc})
			}
		})
	})
}

func newWorld(abilities []string) (w *world, err any) {
	defer func() {
		if r := recover(); r != nil {
			if w != nil && w.sys != nil {
				shutdown(w.sys)
			}
			w, err = nil, r
		}
	}()
	logger := log.NewSilentLogger()
	w = &world{launches: map[string]int{}}
	w.sys = vivid.NewActorSystem(vivid.FunctionalActorSystemConfigurator(func(config *vivid.ActorSystemConfiguration) {
		config.WithLoggerProvider(log.FunctionalLoggerProvider(func() *log.Logger { return logger }))
	}))
	w.mgr = cluster.VerifNewManager(w.sys, func(config *cluster.ActorSystemConfiguration) {
		// every ability is declared with a shared "common settings" configurator that also names the actor: the
		// manager's own naming (identity as prefix, ability as name) must be applied last and win, otherwise
		// distinct (identity, ability) pairs collide on one address
		common := vivid.FunctionalActorDescriptorConfigurator(func(d *vivid.ActorDescriptor) {
			d.WithNamePrefix("common").WithName("worker")
		})
		for _, a := range abilities {
			config.WithAbility(a, w.abilityProvider(), common)
		}
	})
	w.mgrRef = w.sys.ActorOf(w.mgr, vivid.FunctionalActorDescriptorConfigurator(func(d *vivid.ActorDescriptor) {
		d.WithName("cluster")
		// no strategy of its own (the guard decides, as for the shipped manager); the logger only counts
		d.WithSupervisionStrategyProvider(nil, supervision.FunctionalLogger(func(record *supervision.AccidentRecord) {
			w.accidents.Add(1)
		}))
	}))
	return w, nil
}

func shutdown(sys *vivid.ActorSystem) {
	done := make(chan struct{})
	go func() {
		defer func() { _ = recover(); close(done) }()
		sys.Shutdown(false)
	}()
	select {
	case <-done:
	case <-time.After(5 * time.Second): // a system that cannot stop is abandoned (the case is over)
	}
}

type askResult struct {
	v   vivid.Message
	err error
}

// await waits for the future; if the manager has an accident meanwhile and no answer follows within
// panicGrace the wait is given up (answered=false).
func (w *world) await(f future.Future[vivid.Message], accBefore int64) (askResult, bool) {
	ch := make(chan askResult, 1)
	go func() {
		v, err := f.Result()
		ch <- askResult{v, err}
	}()
	tick := time.NewTicker(2 * time.Millisecond)
	defer tick.Stop()
	for {
		select {
		case r := <-ch:
			return r, true
		case <-tick.C:
			if w.accidents.Load() > accBefore {
				select {
				case r := <-ch:
					return r, true
				case <-time.After(panicGrace):
					f.Close(fmt.Errorf("abandoned"))
					<-ch
					return askResult{}, false
				}
			}
		}
	}
}

// fmtReply maps a reply of the manager to its canonical form. The "unsupported ability" / "cannot
// create" answers are accepted both as an error *value* (how a wrapped reply reaches a future today,
// C07 note 3) and as an error *result* of the future.
func fmtReply(r askResult) (string, vivid.ActorRef) {
	classify := func(e error) string {
		switch {
		case e == future.ErrorFutureTimeout:
			return "timeout"
		case strings.Contains(e.Error(), "does not support"):
			return "err:ability"
		default:
			return "err:create"
		}
	}
	if r.err != nil {
		return classify(r.err), nil
	}
	switch v := r.v.(type) {
	case error:
		return classify(v), nil
	case *prc.ProcessId:
		if v == nil {
			return "err:nilref", nil
		}
		return "ref", v
	case nil:
		return "err:nilreply", nil
	default:
		return fmt.Sprintf("err:type:%T", r.v), nil
	}
}

// incarnation asks the referenced actor which launch it is. "dead" is only answered when it is final:
// the manager no longer has a child at that address (read in the manager's own turn), or nobody
// answers the ping within the cap.
func (w *world) incarnation(ask func(target vivid.ActorRef, m vivid.Message, timeout ...time.Duration) future.Future[vivid.Message], ref vivid.ActorRef) string {
	addr := ref.GetLogicalAddress()
	if v, ok := w.inManager(func(ctx vivid.ActorContext) any {
		for _, r := range ctx.Children() {
			if r.GetLogicalAddress() == addr {
				return true
			}
		}
		return false
	}).(bool); ok && !v {
		return "dead"
	}
	v, err := ask(ref, pingMsg{}, askCap).Result()
	if err != nil {
		return "dead"
	}
	if p, ok := v.(pongMsg); ok {
		return fmt.Sprint(p.inc)
	}
	return "dead"
}

// waitRestart waits until a new manager incarnation has been provided after an accident
func (w *world) waitRestart(provBefore int64) bool {
	deadline := time.Now().Add(settleCap)
	for w.mgr.Provided() <= provBefore {
		if time.Now().After(deadline) {
			return false
		}
		time.Sleep(2 * time.Millisecond)
	}
	return true
}

// inManager runs f inside the manager's own turn and returns its result (nil on cap)
func (w *world) inManager(f func(ctx vivid.ActorContext) any) any {
	ch := make(chan any, 1)
	w.sys.ExecLocalFunc(w.mgrRef, func(ctx vivid.ActorContext) { ch <- f(ctx) })
	select {
	case v := <-ch:
		return v
	case <-time.After(settleCap):
		return nil
	}
}

func (w *world) lookup(identity, ability string) string {
	acc, prov := w.accidents.Load(), w.mgr.Provided()
	f := w.sys.FutureAsk(w.mgrRef, cluster.VerifActorOfMessage(identity, ability), askCap)
	r, answered := w.await(f, acc)
	out := "noreply"
	if answered {
		s, ref := fmtReply(r)
		if ref != nil {
			s = "ref " + enc(ref.GetLogicalAddress()) + " #" + w.incarnation(w.sys.FutureAsk, ref)
		}
		out = s
	}
	if w.accidents.Load() > acc {
		// the manager failed while handling the request: the guard restarts it
		if !w.waitRestart(prov) {
			return out + " panic norestart"
		}
		if out == "noreply" {
			return "panic"
		}
		return out + " panic"
	}
	return out
}

func (w *world) members() [][3]string {
	v := w.inManager(func(ctx vivid.ActorContext) any { return w.mgr.Members() })
	m, _ := v.([][3]string)
	return m
}

func (w *world) kill(identity, ability string) string {
	var addr string
	found := false
	for _, m := range w.members() {
		if m[0] == ability && m[1] == identity {
			addr, found = m[2], true
		}
	}
	if !found {
		return "none"
	}
	w.sys.Terminate(prc.NewProcessId(w.sys.PhysicalAddress(), addr), false)
	deadline := time.Now().Add(settleCap)
	for {
		// read, in one turn of the manager, whether it still has the child and whether it still remembers
		// the pair: the runtime removes the child and hands OnTerminated to the manager in the same turn,
		// so "child gone, pair remembered" is final, not a matter of waiting longer
		v := w.inManager(func(ctx vivid.ActorContext) any {
			child, member := false, false
			for _, r := range ctx.Children() {
				if r.GetLogicalAddress() == addr {
					child = true
				}
			}
			for _, m := range w.mgr.Members() {
				if m[0] == ability && m[1] == identity {
					member = true
				}
			}
			return [2]bool{child, member}
		})
		st, ok := v.([2]bool)
		switch {
		case ok && !st[1]:
			return "killed " + enc(addr)
		case ok && !st[0] && st[1]:
			return "killed-but-remembered " + enc(addr)
		case time.Now().After(deadline):
			return "kill-timeout " + enc(addr)
		}
		time.Sleep(time.Millisecond)
	}
}

func (w *world) restart() string {
	prov := w.mgr.Provided()
	w.sys.ExecLocalFunc(w.mgrRef, func(ctx vivid.ActorContext) { panic("verif: injected manager failure") })
	if !w.waitRestart(prov) {
		return "norestart"
	}
	return "restarted"
}

func (w *world) state() string {
	v := w.inManager(func(ctx vivid.ActorContext) any {
		var c []string
		for _, r := range ctx.Children() {
			c = append(c, enc(r.GetLogicalAddress()))
		}
		sort.Strings(c)
		var m []string
		for _, e := range w.mgr.Members() {
			m = append(m, enc(e[0]), enc(e[1]), enc(e[2]))
		}
		return "c=[" + strings.Join(c, " ") + "] m=[" + strings.Join(m, " ") + "]"
	})
	s, ok := v.(string)
	if !ok {
		return "timeout"
	}
	return s
}
