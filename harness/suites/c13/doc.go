// Package c13 holds the harness suites of property C13 (registered from init functions).
package c13
