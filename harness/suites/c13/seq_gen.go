package c13

import (
	"bufio"
	"fmt"
	"strings"

	"verifharness/internal/proto"
)

// Generators of suite "cmgr" (every case: `new …`, the history, then `state` and `launches`):
//
//	(A) exhaustive: every history of 1..L steps (quick L=5, thorough L=6) over
//	    {lookup x p, lookup y p, lookup x q (q not offered), kill x p, kill y p}, node offering {p};
//	(B) restart placement: X ; restart ; Y for every X of ≤1 (thorough ≤2) and Y of ≤2 steps over the same
//	    alphabet — what the manager remembers across its own restart;
//	(C) collisions: node offering {c, b-c}, identities {a-b, a}: the pairs (a-b,c) and (a,b-c) share the name
//	    a-b-c; every history of ≤4 (thorough ≤5) steps over the 4 lookups and the 2 kills of the colliding pairs;
//	(D) seeded random structured histories: 1..4 identities x 1..3 abilities (one of them possibly not offered),
//	    5..40 steps, repeats favoured, kills 15 %, restart 3 %, state probes;
//	(E) malformed stream: empty / blank / slash / backslash identities and abilities, abilities offered
//	    under such names, duplicate abilities in `new`, ops before `new`, wrong arity, unknown ops.
type seqG struct {
	w              *bufio.Writer
	shard, nshards int
	caseNo         int
}

func (g *seqG) emit(newLine string, body []string) {
	n := g.caseNo
	g.caseNo++
	if n%g.nshards != g.shard {
		return
	}
	fmt.Fprintf(g.w, "# case %d\n%s\n", n, newLine)
	for _, l := range body {
		fmt.Fprintln(g.w, l)
	}
	fmt.Fprintln(g.w, "state")
	fmt.Fprintln(g.w, "launches")
}

// all sequences of length lo..hi over the alphabet
func sequences(alpha []string, lo, hi int, f func(seq []string)) {
	var rec func(cur []string, left int)
	rec = func(cur []string, left int) {
		if left == 0 {
			f(cur)
			return
		}
		for _, a := range alpha {
			rec(append(cur, a), left-1)
		}
	}
	for l := lo; l <= hi; l++ {
		rec(make([]string, 0, l), l)
	}
}

func seqGen(rng *proto.RNG, tier string, shard, nshards int, w *bufio.Writer) {
	g := &seqG{w: w, shard: shard, nshards: nshards}
	thorough := tier == "thorough"
	base := []string{"lookup x p", "lookup y p", "lookup x q", "kill x p", "kill y p"}

	// (A)
	L := 5
	if thorough {
		L = 6
	}
	sequences(base, 1, L, func(seq []string) { g.emit("new p", seq) })

	// (B)
	xl := 1
	if thorough {
		xl = 2
	}
	sequences(base, 0, xl, func(x []string) {
		xs := append([]string(nil), x...)
		sequences(base, 0, 2, func(y []string) {
			body := append(append(append([]string(nil), xs...), "restart"), y...)
			g.emit("new p", body)
		})
	})

	// (C)
	coll := []string{"lookup a-b c", "lookup a b-c", "lookup a c", "lookup a-b b-c", "kill a-b c", "kill a b-c"}
	cl := 4
	if thorough {
		cl = 5
	}
	sequences(coll, 1, cl, func(seq []string) { g.emit("new c b-c", seq) })

	// (D)
	nD := 320
	if thorough {
		nD = 4000
	}
	idPool := []string{"u1", "u2", "u3", "u4", "a", "a-b", "a-b-c", "room.7", "X", "x"}
	abPool := []string{"calc", "chat", "c", "b-c", "p", "P", "store_1"}
	for k := 0; k < nD; k++ {
		ni, na := rng.Range(1, 4), rng.Range(1, 3)
		ids := pickDistinct(rng, idPool, ni)
		abs := pickDistinct(rng, abPool, na)
		offered := abs
		if na > 1 && rng.Intn(3) == 0 {
			offered = abs[:na-1] // the last ability is requested but not offered
		}
		var body []string
		n := rng.Range(5, 40)
		var last [2]string
		restarts := 0
		for j := 0; j < n; j++ {
			i, a := ids[rng.Intn(ni)], abs[rng.Intn(na)]
			if last[0] != "" && rng.Intn(4) == 0 {
				i, a = last[0], last[1] // repeat the previous pair
			}
			switch rng.Pick(70, 15, 3, 12) {
			case 0:
				body = append(body, "lookup "+i+" "+a)
				last = [2]string{i, a}
			case 1:
				body = append(body, "kill "+i+" "+a)
			case 2:
				if restarts < 2 {
					body = append(body, "restart")
					restarts++
				}
			case 3:
				if rng.Bool() {
					body = append(body, "state")
				} else {
					body = append(body, "launches")
				}
			}
		}
		g.emit("new "+strings.Join(offered, " "), body)
	}

	// (E)
	nE := 160
	if thorough {
		nE = 1200
	}
	badIds := []string{"<>", "u^1", "u|1", "u/1", "u\\1", "/", "^", "u1", "a-b", "-", "--", "a-"}
	badAbs := []string{"<>", "c^d", "c/d", "c\\d", "calc", "-c", "c-", "-"}
	for k := 0; k < nE; k++ {
		var body []string
		newLine := "new calc"
		switch rng.Intn(6) {
		case 0: // ops before new / no new at all
			newLine = "lookup u1 calc"
			body = append(body, "state", "kill u1 calc", "restart")
		case 1: // duplicate ability
			newLine = "new calc chat calc"
			body = append(body, "lookup u1 calc", "state")
			if rng.Bool() {
				body = append(body, "new calc", "lookup u1 calc", "lookup u1 calc")
			}
		case 2: // abilities offered under names no actor can carry
			offered := pickDistinct(rng, badAbs, rng.Range(1, 3))
			newLine = "new " + strings.Join(offered, " ")
			for j := 0; j < rng.Range(2, 10); j++ {
				body = append(body, "lookup "+badIds[rng.Intn(len(badIds))]+" "+offered[rng.Intn(len(offered))])
			}
		case 3: // node without abilities
			newLine = "new"
			body = append(body, "lookup u1 calc", "kill u1 calc", "lookup <> <>")
		case 4: // wrong arity, unknown ops
			body = append(body, "lookup u1", "lookup", "lookup u1 calc extra", "kill u1", "restart now", "state 1", "frobnicate", "lookup u1 calc", "launches x")
		default:
			for j := 0; j < rng.Range(3, 14); j++ {
				i := badIds[rng.Intn(len(badIds))]
				a := "calc"
				if rng.Intn(4) == 0 {
					a = badAbs[rng.Intn(len(badAbs))]
				}
				if rng.Intn(5) == 0 {
					body = append(body, "kill "+i+" "+a)
				} else {
					body = append(body, "lookup "+i+" "+a)
				}
			}
		}
		g.emit(newLine, body)
	}
}

func pickDistinct(rng *proto.RNG, pool []string, n int) []string {
	p := append([]string(nil), pool...)
	if n > len(p) {
		n = len(p)
	}
	for i := 0; i < n; i++ {
		j := i + rng.Intn(len(p)-i)
		p[i], p[j] = p[j], p[i]
	}
	return p[:n]
}
