// Package c02 holds the harness suites of property C02 (registered from init functions).
package c02
