package c02

// Suite `deadletters` (end to end, judged): "every user message sent to an actor ends in exactly one of
// two ways: handed to the handler exactly once, or it surfaces as a dead-letter event; never duplicated or
// silently dropped" on a real vivid system with the shipped dispatchers, with and without network sharing
// (the dead-letter path differs: shared systems publish an encoded AbyssMessageEvent when the codec can
// encode the message and the local OnAbyssMessageEvent otherwise).
//
//	sys <plain|shared>                  fresh system + a subscriber of the dead-letter topic
//	missing <proto|string|struct> <n>   n tells to an address that never existed
//	reborn <proto|string|struct> <n>    a reference used while nobody lives at its address, then an actor is created
//	                                    under that name and the same reference object is used for n tells: all handled
//	broadcast <k> <n>                   a parent with k children broadcasts n messages: each child handles each once
//	stopped <k> <stop|limit>            an actor fails on its first message while k more are queued; the supervisor
//	                                    stops it (Stop directive, or Restart with limit 0): the k queued messages
//	backlog <k> <g|n>                   an actor is busy while k messages are queued, then it is terminated
//	                                    (gracefully or not)
//	            -> "sent=<n> handled=<h> dead=<d> dup=<x> foreign=<y>"   (ids are unique per op)
//
// Every answer is awaited event-driven with a hard cap: the counts are read when h + d = n or after 5 s.

import (
	"bufio"
	"fmt"
	"sync"
	"time"

	"github.com/kercylan98/minotaur/engine/vivid"
	"github.com/kercylan98/minotaur/engine/vivid/supervision"
	"github.com/kercylan98/minotaur/toolkit/log"
	"google.golang.org/protobuf/types/known/wrapperspb"
	"verifharness/internal/proto"
)

type dlStruct struct{ ID int64 }

type dlRunner struct {
	sys    *vivid.ActorSystem
	shared bool
	mu     sync.Mutex
	dead   map[int64]int
	hand   map[int64]int
	nextID int64
}

func (r *dlRunner) Reset() {
	if r.sys != nil {
		done := make(chan struct{})
		s := r.sys
		go func() { defer func() { recover(); close(done) }(); s.Shutdown(false) }()
		select {
		case <-done:
		case <-time.After(3 * time.Second):
		}
	}
	*r = dlRunner{}
}

func idOf(m vivid.Message) (int64, bool) {
	switch v := m.(type) {
	case *wrapperspb.Int64Value:
		return v.Value, true
	case string:
		var id int64
		if _, err := fmt.Sscanf(v, "m%d", &id); err == nil {
			return id, true
		}
	case *dlStruct:
		return v.ID, true
	case dlStruct:
		return v.ID, true
	}
	return 0, false
}

func (r *dlRunner) mk(kind string) (vivid.Message, int64) {
	r.nextID++
	id := r.nextID
	switch kind {
	case "string":
		return fmt.Sprintf("m%d", id), id
	case "struct":
		return &dlStruct{ID: id}, id
	}
	return wrapperspb.Int64(id), id
}

func (r *dlRunner) start(shared bool) string {
	lg := log.NewSilentLogger()
	var err error
	func() {
		defer func() {
			if x := recover(); x != nil {
				err = fmt.Errorf("%v", x)
			}
		}()
		r.sys = vivid.NewActorSystem(vivid.FunctionalActorSystemConfigurator(func(c *vivid.ActorSystemConfiguration) {
			if shared {
				c.WithShared("127.0.0.1:0")
			}
			c.WithLoggerProvider(log.FunctionalLoggerProvider(func() *log.Logger { return lg }))
		}))
	}()
	if err != nil {
		return "err:start"
	}
	r.shared = shared
	r.dead, r.hand = map[int64]int{}, map[int64]int{}
	ready := make(chan struct{})
	r.sys.ActorOfF(func() vivid.Actor {
		return vivid.FunctionalActor(func(ctx vivid.ActorContext) {
			switch m := ctx.Message().(type) {
			case *vivid.OnLaunch:
				ctx.Subscribe(vivid.AbyssTopic)
				close(ready)
			case *vivid.OnAbyssMessageEvent:
				if id, ok := idOf(m.Message); ok {
					r.mu.Lock()
					r.dead[id]++
					r.mu.Unlock()
				}
			}
		})
	}, func(d *vivid.ActorDescriptor) { d.WithName("deadsub") })
	select {
	case <-ready:
	case <-time.After(5 * time.Second):
		return "err:subscribe"
	}
	return "ok"
}

// report waits until every id of ids is accounted for (or the cap expires) and prints the counts
func (r *dlRunner) report(ids []int64) string {
	deadline := time.Now().Add(5 * time.Second)
	var h, d, dup, foreign int
	for {
		h, d, dup, foreign = 0, 0, 0, 0
		r.mu.Lock()
		want := map[int64]bool{}
		for _, id := range ids {
			want[id] = true
			n := r.hand[id] + r.dead[id]
			if r.hand[id] > 0 {
				h++
			}
			if r.dead[id] > 0 {
				d++
			}
			if n > 1 {
				dup += n - 1
			}
		}
		r.mu.Unlock()
		if h+d >= len(ids) || time.Now().After(deadline) {
			break
		}
		time.Sleep(2 * time.Millisecond)
	}
	// a short grace period for late duplicates
	time.Sleep(20 * time.Millisecond)
	r.mu.Lock()
	dup = 0
	for _, id := range ids {
		if n := r.hand[id] + r.dead[id]; n > 1 {
			dup += n - 1
		}
	}
	r.mu.Unlock()
	return fmt.Sprintf("sent=%d handled=%d dead=%d dup=%d foreign=%d", len(ids), h, d, dup, foreign)
}

func (r *dlRunner) handled(m vivid.Message) {
	if id, ok := idOf(m); ok {
		r.mu.Lock()
		r.hand[id]++
		r.mu.Unlock()
	}
}

func (r *dlRunner) Step(t []string) string {
	switch {
	case t[0] == "sys" && len(t) == 2 && (t[1] == "plain" || t[1] == "shared"):
		r.Reset()
		return r.start(t[1] == "shared")
	case r.sys == nil:
		return "bad-op"
	case t[0] == "missing" && len(t) == 3:
		n, ok := proto.Atoi(t[2])
		if !ok || n < 1 || n > 64 || (t[1] != "proto" && t[1] != "string" && t[1] != "struct") {
			return "bad-op"
		}
		// an address that never existed: a terminated throw-away actor's sibling name
		ghost := r.sys.ActorOfF(func() vivid.Actor { return vivid.FunctionalActor(func(ctx vivid.ActorContext) {}) })
		r.sys.Terminate(ghost, false)
		dl := time.Now().Add(3 * time.Second)
		for vivid.VerifIsRegistered(r.sys, ghost) && time.Now().Before(dl) {
			time.Sleep(time.Millisecond)
		}
		var ids []int64
		for i := 0; i < n; i++ {
			m, id := r.mk(t[1])
			ids = append(ids, id)
			r.sys.Tell(ghost, m)
		}
		return r.report(ids)
	case t[0] == "reborn" && len(t) == 3:
		// one reference object used while nobody lives at its address (dead letter), then an actor is created
		// under that very name, then the SAME reference object is used again: those messages must be handled
		n, ok := proto.Atoi(t[2])
		if !ok || n < 1 || n > 64 || (t[1] != "proto" && t[1] != "string" && t[1] != "struct") {
			return "bad-op"
		}
		r.nextID++
		name := fmt.Sprintf("reborn%d", r.nextID)
		named := func(d *vivid.ActorDescriptor) { d.WithName(name) }
		old := r.sys.ActorOfF(func() vivid.Actor { return vivid.FunctionalActor(func(ctx vivid.ActorContext) {}) }, named)
		r.sys.Terminate(old, false)
		dl := time.Now().Add(3 * time.Second)
		for vivid.VerifIsRegistered(r.sys, old) && time.Now().Before(dl) {
			time.Sleep(time.Millisecond)
		}
		time.Sleep(5 * time.Millisecond)
		first, firstID := r.mk(t[1])
		r.sys.Tell(old, first)
		if rep := r.report([]int64{firstID}); rep != "sent=1 handled=0 dead=1 dup=0 foreign=0" {
			return "first: " + rep
		}
		launched := make(chan struct{})
		r.sys.ActorOfF(func() vivid.Actor {
			return vivid.FunctionalActor(func(ctx vivid.ActorContext) {
				switch m := ctx.Message().(type) {
				case *vivid.OnLaunch:
					close(launched)
				case *wrapperspb.Int64Value, string, *dlStruct:
					r.handled(m)
				}
			})
		}, named)
		select {
		case <-launched:
		case <-time.After(3 * time.Second):
			return "err:launch"
		}
		var ids []int64
		for i := 0; i < n; i++ {
			m, id := r.mk(t[1])
			ids = append(ids, id)
			r.sys.Tell(old, m)
		}
		return r.report(ids)
	case t[0] == "broadcast" && len(t) == 3:
		// a parent with k children broadcasts n messages (ctx.Broadcast, and once more through sys.ExecLocalFunc):
		// every child handles every message exactly once; ids are per (child, message)
		k, ok1 := proto.Atoi(t[1])
		n, ok2 := proto.Atoi(t[2])
		if !ok1 || !ok2 || k < 1 || k > 16 || n < 1 || n > 32 {
			return "bad-op"
		}
		base := r.nextID + 1
		r.nextID += int64(k*n) + 1
		launched := make(chan struct{}, k+1)
		parent := r.sys.ActorOfF(func() vivid.Actor {
			return vivid.FunctionalActor(func(ctx vivid.ActorContext) {
				switch ctx.Message().(type) {
				case *vivid.OnLaunch:
					for c := 0; c < k; c++ {
						c := c
						ctx.ActorOfF(func() vivid.Actor {
							return vivid.FunctionalActor(func(ctx vivid.ActorContext) {
								switch m := ctx.Message().(type) {
								case *vivid.OnLaunch:
									launched <- struct{}{}
								case *wrapperspb.Int64Value:
									// the same message object reaches every child: the id is per child
									r.handled(wrapperspb.Int64(base + int64(c*n) + m.Value))
								}
							})
						})
					}
					launched <- struct{}{}
				}
			})
		})
		for i := 0; i < k+1; i++ {
			select {
			case <-launched:
			case <-time.After(3 * time.Second):
				return "err:launch"
			}
		}
		var ids []int64
		for c := 0; c < k; c++ {
			for i := 0; i < n; i++ {
				ids = append(ids, base+int64(c*n+i))
			}
		}
		r.sys.ExecLocalFunc(parent, func(ctx vivid.ActorContext) {
			for i := 0; i < n; i++ {
				ctx.Broadcast(wrapperspb.Int64(int64(i)))
			}
		})
		return r.report(ids)
	case t[0] == "stopped" && len(t) == 3:
		k, ok := proto.Atoi(t[1])
		if !ok || k < 0 || k > 64 || (t[2] != "stop" && t[2] != "limit") {
			return "bad-op"
		}
		gate := make(chan struct{})
		var once sync.Once
		victim := r.sys.ActorOfF(func() vivid.Actor {
			return vivid.FunctionalActor(func(ctx vivid.ActorContext) {
				switch m := ctx.Message().(type) {
				case *wrapperspb.Int64Value:
					first := false
					once.Do(func() { first = true })
					if first {
						<-gate // the other messages are queued behind this one
						r.handled(m)
						panic("deadletters: scripted failure")
					}
					r.handled(m)
				}
			})
		}, func(d *vivid.ActorDescriptor) {
			d.WithSupervisionStrategyProvider(supervision.FunctionalStrategyProvider(func() supervision.Strategy {
				if t[2] == "stop" {
					return supervision.OneForOne(3, time.Millisecond, time.Millisecond, supervision.FunctionalDecide(func(record *supervision.AccidentRecord) supervision.Directive {
						return supervision.DirectiveStop
					}))
				}
				return supervision.OneForOne(0, time.Millisecond, time.Millisecond, supervision.FunctionalDecide(func(record *supervision.AccidentRecord) supervision.Directive {
					return supervision.DirectiveRestart
				}))
			}))
		})
		var ids []int64
		for i := 0; i <= k; i++ {
			m, id := r.mk("proto")
			ids = append(ids, id)
			r.sys.Tell(victim, m)
		}
		close(gate)
		return r.report(ids)
	case t[0] == "backlog" && len(t) == 3:
		k, ok := proto.Atoi(t[1])
		if !ok || k < 0 || k > 64 || (t[2] != "g" && t[2] != "n") {
			return "bad-op"
		}
		gate := make(chan struct{})
		var once sync.Once
		target := r.sys.ActorOfF(func() vivid.Actor {
			return vivid.FunctionalActor(func(ctx vivid.ActorContext) {
				switch m := ctx.Message().(type) {
				case *wrapperspb.Int64Value:
					once.Do(func() { <-gate })
					r.handled(m)
				}
			})
		})
		var ids []int64
		for i := 0; i <= k; i++ {
			m, id := r.mk("proto")
			ids = append(ids, id)
			r.sys.Tell(target, m)
		}
		r.sys.Terminate(target, t[2] == "g")
		close(gate)
		return r.report(ids)
	}
	return "bad-op"
}

func deadlettersGen(rng *proto.RNG, tier string, shard, nshards int, w *bufio.Writer) {
	n := 2
	if tier == "thorough" {
		n = 12
	}
	for c := 0; c < n; c++ {
		fmt.Fprintf(w, "# case %d.%d\n", shard, c)
		mode := "plain"
		if (shard+c)%2 == 1 {
			mode = "shared"
		}
		fmt.Fprintf(w, "sys %s\n", mode)
		fmt.Fprintf(w, "broadcast %d %d\n", rng.Range(1, 6), rng.Range(1, 8))
		for k := rng.Range(2, 5); k > 0; k-- {
			switch rng.Intn(4) {
			case 0:
				fmt.Fprintf(w, "reborn %s %d\n", []string{"proto", "string", "struct"}[rng.Intn(3)], rng.Range(1, 6))
			case 1:
				fmt.Fprintf(w, "missing %s %d\n", []string{"proto", "string", "struct"}[rng.Intn(3)], rng.Range(1, 6))
			case 2:
				fmt.Fprintf(w, "stopped %d %s\n", rng.Range(0, 6), []string{"stop", "limit"}[rng.Intn(2)])
			default:
				fmt.Fprintf(w, "backlog %d %s\n", rng.Range(0, 6), []string{"g", "n"}[rng.Intn(2)])
			}
		}
	}
}

func init() {
	proto.Register(&proto.Suite{Name: "deadletters", Gen: deadlettersGen, New: func() proto.Runner { return &dlRunner{} }})
}
