package c02

import "verifharness/suites/mbx"

func init() { mbx.Register(); mbx.RegisterFacts() }
