package c02

import (
	"verifharness/suites/asys"
	"verifharness/suites/mbx"
)

// mailbox / mailbox-facts: Layer 1 (lost wake-ups, duplication, FIFO). actorsys: Layer 2 (dead-letter
// routing of terminating / terminated / unknown receivers, drain of a suspended mailbox on termination)
// compared step by step with the model. deadletters: end to end on a real system (deadletters.go).
// dispatchers: a dispatcher that drops or doubles a mailbox run strands or duplicates every message behind it.
func init() { mbx.Register(); mbx.RegisterFacts(); mbx.RegisterDispatch(); asys.Register() }
